"""C14 — models mirror the wire schema; conversion is total and value-preserving (engine T).

Runs the real conversion code (from_pb / converters / to_dict / from_dict / APIIntEnum.convert) on generated
valid wire messages and compares field by field with expectations derived from the protobuf descriptors.
"""

from __future__ import annotations

import collections
import dataclasses
import math
import os
from typing import Any
from uuid import UUID

from vf import msggen, protoparse
from vf.common import Ctx

LEVEL = "exploration"
RULE = ("pairs = wire message -> model class from the two conversion tables + pairs observed at run time by wrapping APIModelBase.from_pb during the "
        "simulated API sweep + a short explicit list; enum pairs from converter fields and by name (alias table). For every pair: field-name sets, "
        "then from_pb on generated valid messages (every field at each boundary value one at a time, every declared and several undeclared enum "
        "numbers, float32 specials, unicode, NULs, repeated 0/1/many, nested; all-fields and seeded random messages) compared field by field with "
        "the descriptor-driven expected value; to_dict/from_dict round trip; float rounding on boundary floats and random float32 bit patterns. "
        "Non-trivial = a conversion ran and was compared; distinct = (pair, field, value class) resp. (enum, number)")
ASSUMPTIONS = [
    "float oracle: float(f'{v:.7g}') with 0, +-inf, NaN unchanged (independent of util.fix_float_single_double_conversion)",
    "enum.IntFlag helper classes are bit masks over uint32 wire fields, not mirrors of a wire enum: listed, not judged",
    "special converters (service map, split UUID, advertisement) are judged by explicit expected functions written from their documentation",
    "split-UUID fields (`repeated uint64 uuid` of the GATT service/characteristic/descriptor messages) are generated with exactly two words (high, low), the documented domain",
]
BUDGET_S = {"quick": 300, "thorough": 3000}
MIN_EVALS = {"quick": 20000, "thorough": 400000}

ENUM_ALIASES = {"AlarmControlPanelCommand": "AlarmControlPanelStateCommand", "VoiceAssistantEventType": "VoiceAssistantEvent",
                "VoiceAssistantTimerEventType": "VoiceAssistantTimerEvent", "UserServiceArgType": "ServiceArgType",
                "LastResetType": "SensorLastResetType"}
EXTRA_PAIRS = [("BluetoothGATTErrorResponse", "BluetoothGATTError"), ("BluetoothDeviceConnectionResponse", "BluetoothDeviceConnection"),
               ("BluetoothGATTReadResponse", "BluetoothGATTRead"), ("BluetoothConnectionsFreeResponse", "BluetoothConnectionsFree"),
               ("VoiceAssistantAudioSettings", "VoiceAssistantAudioSettings"), ("MediaPlayerSupportedFormat", "MediaPlayerSupportedFormat")]


def exhaustive(tier: str) -> Any:
    return ["every paired enum x every declared number; every paired class x every field x every boundary value (one field at a time)"]


def strip_common_prefix(names: list[str]) -> dict[str, str]:
    if len(names) < 2:
        p = ""
    else:
        p = os.path.commonprefix(names)
        p = p[: p.rfind("_") + 1]
    return {n: n[len(p):] for n in names}


def expected_float(v: float) -> float:
    if v == 0 or math.isinf(v) or math.isnan(v):
        return v
    return float(f"{v:.7g}")


def same(a: Any, b: Any) -> bool:
    if isinstance(a, float) and isinstance(b, float):
        if math.isnan(a) or math.isnan(b):
            return math.isnan(a) and math.isnan(b)
        return a == b and math.copysign(1, a) == math.copysign(1, b)
    if isinstance(a, (list, tuple)) and isinstance(b, (list, tuple)):
        return len(a) == len(b) and all(same(x, y) for x, y in zip(a, b))
    if isinstance(a, dict) and isinstance(b, dict):
        return a.keys() == b.keys() and all(same(a[k], b[k]) for k in a)
    if dataclasses.is_dataclass(a) and dataclasses.is_dataclass(b) and type(a) is type(b):
        return all(same(getattr(a, f.name), getattr(b, f.name)) for f in dataclasses.fields(a))
    return type(a) == type(b) and a == b or (isinstance(a, int) and isinstance(b, int) and int(a) == int(b) and type(a) is type(b))


class Conv:
    """Classifies the converter of a model field and computes the expected model value from the wire value."""

    def __init__(self) -> None:
        from aioesphomeapi import model as M
        from aioesphomeapi import util as U

        self.M = M
        self.U = U
        self.unmodelled: set[str] = set()

    def expected(self, model_cls: Any, f: Any, wire_val: Any, fd: Any) -> tuple[bool, Any]:
        """Returns (judged?, expected value)."""
        M = self.M
        conv = f.metadata.get("converter")
        if conv is None:
            if fd.is_repeated:
                return True, ("list-eq", list(wire_val))
            return True, wire_val
        owner = getattr(conv, "__self__", None)
        fname = getattr(conv, "__name__", "") or getattr(getattr(conv, "__func__", None), "__name__", "")
        if conv is self.U.fix_float_single_double_conversion or fname == "fix_float_single_double_conversion":
            return True, expected_float(wire_val)
        if conv is list:
            return True, list(wire_val)
        if isinstance(owner, type) and issubclass(owner, M.APIIntEnum):
            declared = {v.number for v in fd.enum_type.values} if fd.enum_type is not None else None
            wire_declared = declared if declared is not None else {int(x) for x in owner}
            if fname == "convert":
                return True, (owner(wire_val) if wire_val in wire_declared and wire_val in {int(x) for x in owner} else
                              ("enum-declared-but-none", wire_val) if wire_val in wire_declared else None)
            if fname == "convert_list":
                return True, [owner(x) if x in {int(y) for y in owner} else ("enum-declared-but-dropped", x) for x in wire_val if x in wire_declared]
        if isinstance(owner, type) and issubclass(owner, M.APIModelBase):
            if fname == "convert_list":
                return True, ("models", owner, list(wire_val))
            if fname == "from_pb":
                return True, ("model", owner, wire_val)
        if fname == "_convert_homeassistant_service_map":
            return True, {v.key: v.value for v in wire_val}
        if fname == "_join_split_uuid":
            if len(wire_val) < 2:
                return False, None
            return True, str(UUID(int=(wire_val[0] << 64) | wire_val[1]))
        # a converter this table does not know by name: for a sub-message field the model class is read from the field's annotation - whatever
        # function does the conversion, the nested model must carry the nested message's field values
        from google.protobuf.descriptor import FieldDescriptor as _FD
        import re as _re

        if fd.type == _FD.TYPE_MESSAGE:
            ann = f.type if isinstance(f.type, str) else getattr(f.type, "__name__", "")
            subs = [getattr(M, n_) for n_ in _re.findall(r"[A-Za-z_]\w*", ann)
                    if isinstance(getattr(M, n_, None), type) and issubclass(getattr(M, n_), M.APIModelBase)]
            if subs:
                return True, (("models", subs[-1], list(wire_val)) if fd.is_repeated else ("model", subs[-1], wire_val))
        if fd.is_repeated and fd.type != _FD.TYPE_MESSAGE:
            # ... and for a repeated scalar field the annotation says whether the elements are members of an enum the client exposes or plain
            # values: the list carries the wire list's values whatever helper builds it
            ann = f.type if isinstance(f.type, str) else getattr(f.type, "__name__", "")
            enums = [getattr(M, n_) for n_ in _re.findall(r"[A-Za-z_]\w*", ann)
                     if isinstance(getattr(M, n_, None), type) and issubclass(getattr(M, n_), M.APIIntEnum)]
            if enums:
                owner_ = enums[-1]
                declared_ = {v.number for v in fd.enum_type.values} if fd.enum_type is not None else {int(x) for x in owner_}
                return True, [owner_(x) if x in {int(y) for y in owner_} else ("enum-declared-but-dropped", x) for x in wire_val if x in declared_]
            return True, ("list-eq", list(wire_val))
        self.unmodelled.add(f"{model_cls.__name__}.{f.name}: {fname or conv!r}")
        return False, None


def normalize(msg: Any) -> None:
    """Documented domain of the split-UUID fields: `repeated uint64 uuid` always carries exactly two words (high, low)."""
    from google.protobuf.descriptor import FieldDescriptor as FD

    for fd in msg.DESCRIPTOR.fields:
        if fd.name == "uuid" and fd.is_repeated and fd.type == FD.TYPE_UINT64:
            vals = list(getattr(msg, fd.name))
            vals = (vals + [0x1234, 0x5678])[:2]
            del getattr(msg, fd.name)[:]
            getattr(msg, fd.name).extend(vals)
        elif fd.type == FD.TYPE_MESSAGE:
            if fd.is_repeated:
                for sub in getattr(msg, fd.name):
                    normalize(sub)
            elif msg.HasField(fd.name):
                normalize(getattr(msg, fd.name))


def compare_model(ctx: Ctx, conv: Conv, wire_cls: Any, model_cls: Any, msg: Any, label: str, depth: int = 0) -> list[tuple[str, str]]:
    """from_pb(msg) vs expected, field by field. Returns violations."""
    out: list[tuple[str, str]] = []
    normalize(msg)
    try:
        model = model_cls.from_pb(msg)
    except Exception as e:  # noqa: BLE001
        return [(f"C14/from_pb-raised/{model_cls.__name__}/{type(e).__name__}", f"{model_cls.__name__}.from_pb({wire_cls.__name__} [{label}]) raised {e!r}")]
    ctx.res.count("conversions_compared")
    out += compare_fields(ctx, conv, wire_cls, model_cls, msg, model, label)
    return out


def compare_fields(ctx: Ctx, conv: Conv, wire_cls: Any, model_cls: Any, msg: Any, model: Any, label: str) -> list[tuple[str, str]]:
    out: list[tuple[str, str]] = []
    dfields = {fd.name: fd for fd in wire_cls.DESCRIPTOR.fields}
    for f in dataclasses.fields(model_cls):
        fd = dfields.get(f.name)
        if fd is None:
            continue
        wire_val = getattr(msg, f.name)
        got = getattr(model, f.name)
        judged, exp = conv.expected(model_cls, f, wire_val, fd)
        if not judged:
            continue
        ctx.res.count("fields_compared")
        key = f"C14/value/{model_cls.__name__}.{f.name}"
        if isinstance(exp, tuple) and exp and exp[0] == "list-eq":
            if not same(list(got), exp[1]):
                out.append((key, f"[{label}] {model_cls.__name__}.{f.name} = {list(got)!r:.80}, wire {exp[1]!r:.80}"))
        elif isinstance(exp, tuple) and exp and exp[0] == "enum-declared-but-none":
            out.append((f"C14/enum-declared-number-unmapped/{model_cls.__name__}.{f.name}/{exp[1]}",
                        f"wire value {exp[1]} is declared by the wire enum {fd.enum_type.name} but {model_cls.__name__}.{f.name} converts it to {got!r}"))
        elif isinstance(exp, tuple) and exp and exp[0] == "models":
            _, sub_cls, items = exp
            if not isinstance(got, list) or len(got) != len(items):
                out.append((key, f"[{label}] {model_cls.__name__}.{f.name}: {len(got) if isinstance(got, list) else type(got)} items, wire {len(items)}"))
            else:
                sub_wire = type(items[0]) if items else None
                for it, g in zip(items, got):
                    out += compare_fields(ctx, conv, sub_wire, sub_cls, it, g, label + "/" + f.name)
        elif isinstance(exp, tuple) and exp and exp[0] == "model":
            _, sub_cls, item = exp
            out += compare_fields(ctx, conv, type(item), sub_cls, item, got, label + "/" + f.name)
        elif isinstance(exp, list) and any(isinstance(x, tuple) for x in exp):
            bad = [x[1] for x in exp if isinstance(x, tuple)]
            out.append((f"C14/enum-declared-number-unmapped/{model_cls.__name__}.{f.name}/{bad[0]}",
                        f"declared wire enum numbers {bad} dropped from list {model_cls.__name__}.{f.name}"))
        else:
            if not same(got, exp):
                out.append((key, f"[{label}] {model_cls.__name__}.{f.name} = {got!r:.80}, expected {exp!r:.80} (wire {wire_val!r:.60})"))
    return out


def collect_pairs(ctx: Ctx) -> tuple[list[tuple[Any, Any, str]], dict[str, Any]]:
    from aioesphomeapi import api_pb2 as pb
    from aioesphomeapi import model as M
    from aioesphomeapi import model_conversions as MC
    from vf.sim import apisweep

    pairs: dict[tuple[str, str], tuple[Any, Any, str]] = {}
    for w, m in MC.SUBSCRIBE_STATES_RESPONSE_TYPES.items():
        pairs[(w.__name__, m.__name__)] = (w, m, "state-table")
    for w, m in MC.LIST_ENTITIES_SERVICES_RESPONSE_TYPES.items():
        if m is not None:
            pairs[(w.__name__, m.__name__)] = (w, m, "info-table")
    observed: set[tuple[str, str]] = set()
    for framing in ("plain",):
        apisweep.run(framing, on_from_pb=lambda cls, data, r: observed.add((type(data).__name__, cls.__name__)))
    for wn, mn in sorted(observed):
        w, m = getattr(pb, wn, None), getattr(M, mn, None)
        if w is not None and m is not None and dataclasses.is_dataclass(m):
            pairs.setdefault((wn, mn), (w, m, "observed-in-api-sweep"))
    for wn, mn in EXTRA_PAIRS:
        w, m = getattr(pb, wn, None), getattr(M, mn, None)
        if w is not None and m is not None:
            pairs.setdefault((wn, mn), (w, m, "explicit"))
    info = {"observed_pairs": sorted(f"{a}->{b}" for a, b in observed)}
    return sorted(pairs.values(), key=lambda p: (p[0].__name__, p[1].__name__)), info


def enum_pairs(pairs: list[tuple[Any, Any, str]]) -> tuple[dict[str, tuple[Any, Any]], list[str]]:
    from aioesphomeapi import api_pb2 as pb
    from aioesphomeapi import model as M

    out: dict[str, tuple[Any, Any]] = {}
    for w, m, _ in pairs:
        dfields = {fd.name: fd for fd in w.DESCRIPTOR.fields}
        for f in dataclasses.fields(m):
            conv = f.metadata.get("converter")
            owner = getattr(conv, "__self__", None)
            fd = dfields.get(f.name)
            if isinstance(owner, type) and issubclass(owner, M.APIIntEnum) and fd is not None and fd.enum_type is not None:
                out.setdefault(owner.__name__, (fd.enum_type, owner))
    unpaired = []
    for name, c in vars(M).items():
        if isinstance(c, type) and issubclass(c, M.APIIntEnum) and c is not M.APIIntEnum and name not in out:
            ed = pb.DESCRIPTOR.enum_types_by_name.get(ENUM_ALIASES.get(name, name))
            if ed is not None:
                out[name] = (ed, c)
            else:
                unpaired.append(name)
    return out, unpaired


def check_enums(ctx: Ctx, epairs: dict[str, tuple[Any, Any]]) -> None:
    res = ctx.res
    pr = protoparse.load_api()
    for name, (ed, mc) in sorted(epairs.items()):
        wire = {v.name: v.number for v in ed.values}
        text = pr.enums.get(ed.name)
        if text is not None and text.values != wire:
            res.violation(f"C14/enum-descriptor-vs-text/{ed.name}", f"compiled enum {ed.name} differs from api.proto text", {"enum": name})
        wshort = strip_common_prefix(list(wire))
        members = dict(mc.__members__)          # canonical members AND aliases
        mshort = strip_common_prefix(list(members))
        w_by_num = {num: wshort[n] for n, num in wire.items()}
        res.count("enum_pairs_checked")
        for n, member in members.items():
            res.evaluations += 1
            res.sig("enum", name, n)
            num = int(member)
            if member.name != n:
                res.violation(f"C14/enum-alias/{name}/{n}", f"{name}.{n} = {num} is an alias of {name}.{member.name}: two names share one value", {"enum": name, "member": n})
                continue
            if num not in w_by_num:
                res.violation(f"C14/enum-extra-number/{name}/{num}", f"{name}.{n} = {num} is not a number of wire enum {ed.name}", {"enum": name, "member": n})
            elif w_by_num[num] != mshort[n]:
                res.violation(f"C14/enum-name/{name}/{num}", f"{name}.{n} = {num} but wire enum {ed.name} calls {num} '{w_by_num[num]}'", {"enum": name, "member": n})
        have = {int(m_) for m_ in mc}
        for n, num in wire.items():
            res.evaluations += 1
            res.sig("enum-wire", name, num)
            if num not in have:
                res.violation(f"C14/enum-missing-number/{name}/{num}", f"wire enum {ed.name} declares {n} = {num}; {name} has no member with that value "
                              f"(convert({num}) -> {mc.convert(num)!r})", {"enum": name, "number": num})
            # convert() semantics on every declared and a few undeclared numbers
        for num in sorted(set(wire.values()) | {max(wire.values()) + 1, -1, 2**31 - 1}):
            r = mc.convert(num)
            res.count("enum_convert_calls")
            exp_none = num not in have
            if (r is None) != exp_none or (r is not None and int(r) != num):
                res.violation(f"C14/enum-convert/{name}/{num}", f"{name}.convert({num}) -> {r!r}", {"enum": name, "number": num})
        lst = sorted(set(wire.values())) + [max(wire.values()) + 3, -1]
        r = mc.convert_list(lst)
        if [int(x) for x in r] != [x for x in lst if x in have]:
            res.violation(f"C14/enum-convert-list/{name}", f"{name}.convert_list({lst}) -> {r!r}", {"enum": name})


def adv_expected(msg: Any) -> dict[str, Any]:
    def uuidc(u: str) -> str:
        return f"0000{u[2:].lower()}-0000-1000-8000-00805f9b34fb" if len(u) < 8 else u.lower()
    md = {int(v.uuid, 16): (v.data if msg.manufacturer_data[0].data else bytes(v.legacy_data)) for v in msg.manufacturer_data} if msg.manufacturer_data else {}
    sd = {uuidc(v.uuid): (v.data if msg.service_data[0].data else bytes(v.legacy_data)) for v in msg.service_data} if msg.service_data else {}
    return {"address": msg.address, "rssi": msg.rssi, "address_type": msg.address_type, "name": msg.name.decode("utf-8", errors="replace"),
            "service_uuids": [uuidc(u) for u in msg.service_uuids], "service_data": sd, "manufacturer_data": md}


def check_advertisements(ctx: Ctx) -> None:
    from aioesphomeapi import api_pb2 as pb
    from aioesphomeapi import model as M

    rng = ctx.rng
    res = ctx.res
    for i in range(400 if ctx.thorough else 80):
        m = pb.BluetoothLEAdvertisementResponse(address=rng.getrandbits(48), rssi=-rng.randint(0, 100), address_type=rng.randint(0, 1),
                                                name=rng.choice([b"", b"dev", "gerät".encode(), b"\xff\xfe"]))
        legacy = rng.random() < 0.3
        for _ in range(rng.randint(0, 3)):
            m.service_uuids.append(rng.choice(["0x180F", "0xFEAA", "12345678-1234-5678-1234-56789ABCDEF0"]))
        for _ in range(rng.randint(0, 2)):
            d = m.service_data.add()
            d.uuid = rng.choice(["0x181A", "ABCDEF01-2345-6789-ABCD-EF0123456789"])
            if legacy:
                d.legacy_data.extend([1, 2, 255])
            else:
                d.data = bytes(rng.getrandbits(8) for _ in range(rng.randint(1, 6)))
        for _ in range(rng.randint(0, 2)):
            d = m.manufacturer_data.add()
            d.uuid = rng.choice(["0x004C", "0x0006", "0xFFFF"])
            if legacy:
                d.legacy_data.extend([9, 8])
            else:
                d.data = bytes(rng.getrandbits(8) for _ in range(rng.randint(1, 6)))
        res.evaluations += 1
        res.count("advertisements_compared")
        try:
            got = M.BluetoothLEAdvertisement.from_pb(m)
        except Exception as e:  # noqa: BLE001
            res.violation("C14/advertisement-raised", f"BluetoothLEAdvertisement.from_pb raised {e!r}", {"msg": m.SerializeToString().hex()})
            continue
        exp = adv_expected(m)
        res.sig("adv", legacy, len(m.service_data), len(m.manufacturer_data), len(m.service_uuids))
        for k, v in exp.items():
            if not same(getattr(got, k), v):
                res.violation(f"C14/advertisement/{k}", f"BluetoothLEAdvertisement.{k} = {getattr(got, k)!r:.80}, expected {v!r:.80}", {"msg": m.SerializeToString().hex()})


def check_floats(ctx: Ctx) -> None:
    from aioesphomeapi import api_pb2 as pb
    from aioesphomeapi import model as M

    res = ctx.res
    rng = ctx.rng
    n = (5_000_000 if ctx.thorough else 200_000) // ctx.nshards
    specials = [msggen.f32(x) for x in msggen.FLOATS]
    for k in range(-38, 39):
        base = msggen.f32(10.0 ** k)
        import struct

        bits = struct.unpack("<I", struct.pack("<f", base))[0]
        specials += [base, msggen.float_from_bits(bits + 1), msggen.float_from_bits(bits - 1), -base]
    bad = 0
    msg = pb.NumberStateResponse()
    for i in range(n + len(specials)):
        v = specials[i] if i < len(specials) else msggen.float_from_bits(rng.getrandbits(32))
        msg.state = v
        wire = msg.state
        got = M.NumberState.from_pb(msg).state
        exp = expected_float(wire)
        if not same(got, exp):
            bad += 1
            if bad <= 3:
                res.violation("C14/float-rounding", f"float32 {wire!r} presented as {got!r}, 7 significant digits give {exp!r}", {"float": repr(wire)})
    res.evaluations += n + len(specials)
    res.count("float32_values_compared", n + len(specials))
    res.sig("floats", ctx.shard)
    res.sig("floats-specials", len(specials))


class _FrozenDict(dict):   # noqa: FURB189
    """A dict subclass (as read-only config/state containers are)."""

    def __setitem__(self, k: Any, v: Any) -> None:
        raise TypeError("read-only")


def _remap(v: Any, mk: Any) -> Any:
    if isinstance(v, dict):
        return mk((k, _remap(x, mk)) for k, x in v.items())
    if isinstance(v, list):
        return [_remap(x, mk) for x in v]
    return v


def scribble(obj: Any, depth: int = 0) -> int:
    """Modify every mutable container reachable from a model instance in place; returns how many were touched."""
    n = 0
    if depth > 3 or not dataclasses.is_dataclass(obj):
        return 0
    for f in dataclasses.fields(obj):
        try:
            v = getattr(obj, f.name)
        except AttributeError:
            continue
        if isinstance(v, dict):
            v["__scribble__"] = "x"
            n += 1
        elif isinstance(v, list):
            for item in v:
                n += scribble(item, depth + 1)
            v.append("__scribble__")
            n += 1
        elif isinstance(v, (set, bytearray)):
            n += 1
            if isinstance(v, set):
                v.add("__scribble__")
            else:
                v.extend(b"!!")
        else:
            n += scribble(v, depth + 1)
    return n


def process_history(ctx: Ctx) -> None:
    """What happened earlier in the same process must not matter for a conversion: odd shards first instantiate the model BASE classes and
    a few concrete classes in an unusual order (per-class caches keyed through inheritance, lazily built tables, ... would be seeded wrongly)."""
    from aioesphomeapi import model as M

    if ctx.shard % 2 == 0:
        ctx.res.count("process-history/base-classes-untouched-before-conversions")
        return
    ctx.res.count("process-history/base-classes-instantiated-first")
    for name in ("APIModelBase", "EntityInfo", "EntityState", "BluetoothLEAdvertisement"):
        cls = getattr(M, name, None)
        if cls is None:
            continue
        try:
            inst = cls()
            if hasattr(inst, "to_dict"):
                cls.from_dict(inst.to_dict())
        except Exception:  # noqa: BLE001  (constructibility of the bases is not the point)
            pass


def shard(ctx: Ctx) -> None:
    res = ctx.res
    rng = ctx.rng
    process_history(ctx)
    pairs, info = collect_pairs(ctx)
    epairs, unpaired = enum_pairs(pairs)
    conv = Conv()
    if ctx.shard == 0:
        res.notes["pairs"] = [f"{w.__name__}->{m.__name__} ({src})" for w, m, src in pairs]
        res.notes["observed_pairs"] = info["observed_pairs"]
        res.notes["enum_pairs"] = sorted(f"{n} <-> {ed.name}" for n, (ed, _) in epairs.items())
        res.notes["unpaired_APIIntEnum_classes"] = unpaired
        from aioesphomeapi import model as M
        import enum as _enum

        res.notes["intflag_helpers_not_judged"] = sorted(n for n, c in vars(M).items() if isinstance(c, type) and issubclass(c, _enum.IntFlag) and c.__module__ == M.__name__)
        check_enums(ctx, epairs)
        check_advertisements(ctx)
    round_trip_bases = None
    from aioesphomeapi import model as M

    round_trip_bases = (M.EntityInfo, M.EntityState, M.DeviceInfo, M.UserService)
    for pi, (w, m, src) in enumerate(pairs):
        if not ctx.mine(pi):
            continue
        # field-name sets
        res.evaluations += 1
        res.count("field_sets_compared")
        res.sig("fields", w.__name__, m.__name__)
        wf = {fd.name for fd in w.DESCRIPTOR.fields}
        mf = {f.name for f in dataclasses.fields(m)}
        if wf != mf:
            res.violation(f"C14/field-set/{m.__name__}", f"{m.__name__} vs {w.__name__}: model-only {sorted(mf - wf)}, wire-only {sorted(wf - mf)}", {"pair": [w.__name__, m.__name__]})
        gens = list(msggen.boundary_messages(w, rng))
        n_rand = 400 if ctx.thorough else 40
        gens += [(f"random-{k}", msggen.random_message(w, rng)) for k in range(n_rand)]
        # newer firmware: the same messages carrying fields this client's api.proto does not know yet (a varint and a length-delimited one with
        # high field numbers) - still valid wire messages, converted as if the extras were not there
        extras = []
        for k, (label, msg) in enumerate(gens):
            if k % 4 == 1:
                try:
                    m2 = w()
                    m2.ParseFromString(msg.SerializeToString() + b"\xe0\x76\x2a" + b"\xea\x76\x03abc")
                    extras.append((label + "+unknown-fields", m2))
                except Exception as e:  # noqa: BLE001
                    res.inconclusive.append(f"C14: could not build {w.__name__} with unknown fields: {e!r}")
        gens += extras
        for label, msg in gens:
            res.evaluations += 1
            if label.endswith("+unknown-fields"):
                res.count("conversions_compared/with-unknown-fields")
            found = compare_model(ctx, conv, w, m, msg, label)
            res.sig(w.__name__, label.split("=")[0], label[-12:])
            for key, what in found[:3]:
                res.violation(key, what, {"pair": [w.__name__, m.__name__], "label": label, "msg": msg.SerializeToString().hex()[:400]})
            if not found and issubclass(m, round_trip_bases):
                try:
                    x = m.from_pb(msg)
                    y = m.from_dict(x.to_dict())
                    res.count("round_trips_compared")
                    if not same(x, y):
                        res.violation(f"C14/round-trip/{m.__name__}", f"[{label}] from_dict(to_dict(x)) != x for {m.__name__}", {"pair": [w.__name__, m.__name__], "label": label})
                    elif res.evaluations % 3 == 0:
                        # the stored form read back by another decoder: every mapping an OrderedDict (json object_pairs_hook) or a read-only dict
                        # subclass - still mappings, still the same value
                        for mk in (collections.OrderedDict, _FrozenDict):
                            y2 = m.from_dict(_remap(x.to_dict(), mk))
                            res.count("round_trips_compared/dict-subclass")
                            if not same(x, y2):
                                res.violation(f"C14/round-trip/{m.__name__}", f"[{label}] from_dict(to_dict(x) with every mapping a {mk.__name__}) != x for {m.__name__}",
                                              {"pair": [w.__name__, m.__name__], "label": label, "mapping": mk.__name__})
                except Exception as e:  # noqa: BLE001
                    res.violation(f"C14/round-trip-raised/{m.__name__}", f"[{label}] to_dict/from_dict raised {e!r}", {"pair": [w.__name__, m.__name__], "label": label})
            # conversions must be independent of what a consumer did to EARLIER results: scribble over every mutable container of one result
            # (as an application that post-processes e.g. service data in place does), then convert the same wire message again
            if not found and (label.startswith("random") is False or res.evaluations % 7 == 0):
                try:
                    n_mut = scribble(m.from_pb(msg))
                except Exception:  # noqa: BLE001
                    n_mut = 0
                if n_mut:
                    res.count("aliasing_probes(result scribbled, converted again)")
                    again = compare_model(ctx, conv, w, m, msg, label)
                    for key, what in again[:2]:
                        res.violation(key.replace("C14/", "C14/shared-mutable-state/", 1), f"after an earlier result's containers were modified in place: {what}",
                                      {"pair": [w.__name__, m.__name__], "label": label, "msg": msg.SerializeToString().hex()[:400]})
                    # and an EMPTY message of the same type must still convert to empty containers
                    for key, what in compare_model(ctx, conv, w, m, w(), "empty-after-scribble")[:2]:
                        res.violation(key.replace("C14/", "C14/shared-mutable-state/", 1), f"empty {w.__name__} after an earlier result was modified in place: {what}",
                                      {"pair": [w.__name__, m.__name__], "label": "empty-after-scribble"})
            if res.evaluations % 5000 == 1:
                res.sample({"pair": f"{w.__name__}->{m.__name__}", "case": label, "wire": str(msg)[:160]})
    if conv.unmodelled:
        res.notes.setdefault("unmodelled_converters_not_judged", []).extend(sorted(conv.unmodelled))
    check_floats(ctx)
    from vf.props import c14_s  # noqa: PLC0415

    c14_s.shard(ctx)


def replay(spec: dict[str, Any]) -> int:
    print("C14 replay:", spec.get("key"), spec.get("what"))
    print(spec.get("case"))
    ctx = Ctx("C14", 0, 1, "quick", 0)
    pairs, _ = collect_pairs(ctx)
    ep, _ = enum_pairs(pairs)
    check_enums(ctx, ep)
    for v in ctx.res.violations:
        print(v["key"], v["what"])
    return 1 if ctx.res.violations else 0

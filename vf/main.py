"""Entry point of every check: python -m vf.main <Cxx> --tier quick|thorough [--replay path]."""

from __future__ import annotations

import argparse
import importlib
import json
import logging
import os
import sys
import time


def main() -> int:
    ap = argparse.ArgumentParser()
    ap.add_argument("prop")
    ap.add_argument("--tier", default=os.environ.get("VERIF_TIER", "quick"), choices=["quick", "thorough"])
    ap.add_argument("--replay")
    ap.add_argument("--shards", type=int, default=0)
    a = ap.parse_args()

    from vf import common, simclock

    simclock.install()       # (before the library is imported; outside a scenario the real clocks answer)
    common.setup_path()
    prop = a.prop.upper()
    try:
        mod = importlib.import_module(f"vf.props.{prop.lower()}")
    except BaseException as e:  # noqa: BLE001  -- a defect of the machinery (or a tree that does not even import) is no verdict on the property
        print(f"INCONCLUSIVE property={prop} reason=the check's own code (or the library it imports) failed to load: {e!r}")
        return 2
    seed = common.env_seed()

    if a.replay:
        from vf import logcfg  # noqa: PLC0415

        logcfg.install()
        spec = json.loads(open(a.replay).read())
        if spec.get("chunk_policy"):
            from vf.sim import device as _device  # noqa: PLC0415

            _device.FORCED_POLICY = spec["chunk_policy"]
        if "rotation" in spec:
            from vf.sim import rotation as _rotation  # noqa: PLC0415

            _rotation.FORCED.update({k: list(v) for k, v in spec["rotation"].items()})
            if "helper_logger_debug" in _rotation.FORCED:
                _rotation.FORCED["helper_logger_debug"] = _rotation.FORCED["helper_logger_debug"][-1:] * 8   # engine W: the helper(s) of the witness
            for k in ("client_debug", "noise_hello_mac_field"):
                _rotation.FORCED.setdefault(k, [])
        return int(mod.replay(spec) or 0)

    t0 = time.monotonic()
    budget = mod.BUDGET_S[a.tier] if hasattr(mod, "BUDGET_S") else {"quick": 300, "thorough": 3600}[a.tier]
    nshards = a.shards or getattr(mod, "NSHARDS", min(16, os.cpu_count() or 1))
    res = common.run_shards(prop, a.tier, seed, nshards, budget)
    if hasattr(mod, "finalize"):
        mod.finalize(res, a.tier, seed)
    wall = time.monotonic() - t0
    return common.finish(
        prop, a.tier, seed, mod.LEVEL, mod.RULE, res, wall, mod.ASSUMPTIONS,
        exhaustive=mod.exhaustive(a.tier) if hasattr(mod, "exhaustive") else None,
        min_evals=getattr(mod, "MIN_EVALS", {"quick": 1, "thorough": 1})[a.tier],
    )


if __name__ == "__main__":
    try:
        rc = main()
    except SystemExit:
        raise
    except BaseException as e:  # noqa: BLE001  -- exit status 1 is reserved for a reported VIOLATION
        import traceback

        traceback.print_exc()
        print(f"INCONCLUSIVE reason=the check's driver crashed: {e!r}")
        rc = 2
    sys.exit(rc)

"""Independent Noise_NNpsk0_25519_ChaChaPoly_SHA256 implementation (responder and
initiator) written from the Noise Protocol Framework specification (rev 34,
sections 5 and 9) on `cryptography` primitives only.  Does not import `noise`
(noiseprotocol) nor anything from aioesphomeapi.
"""

from __future__ import annotations

import hashlib
import hmac
import os

from cryptography.exceptions import InvalidTag
from cryptography.hazmat.primitives.asymmetric.x25519 import X25519PrivateKey, X25519PublicKey
from cryptography.hazmat.primitives.ciphers.aead import ChaCha20Poly1305
from cryptography.hazmat.primitives.serialization import Encoding, PublicFormat

PROTOCOL_NAME = b"Noise_NNpsk0_25519_ChaChaPoly_SHA256"
PROLOGUE = b"NoiseAPIInit\x00\x00"


class NoiseError(Exception):
    pass


def _hmac(key: bytes, data: bytes) -> bytes:
    return hmac.new(key, data, hashlib.sha256).digest()


def _hkdf(ck: bytes, ikm: bytes, n: int) -> list[bytes]:
    temp = _hmac(ck, ikm)
    outs = []
    prev = b""
    for i in range(1, n + 1):
        prev = _hmac(temp, prev + bytes([i]))
        outs.append(prev)
    return outs


def _nonce(n: int) -> bytes:
    return b"\x00\x00\x00\x00" + n.to_bytes(8, "little")


class CipherState:
    def __init__(self, k: bytes | None = None) -> None:
        self.k = k
        self.n = 0

    def encrypt(self, ad: bytes, pt: bytes) -> bytes:
        if self.k is None:
            return pt
        ct = ChaCha20Poly1305(self.k).encrypt(_nonce(self.n), pt, ad)
        self.n += 1
        return ct

    def decrypt(self, ad: bytes, ct: bytes) -> bytes:
        if self.k is None:
            return ct
        try:
            pt = ChaCha20Poly1305(self.k).decrypt(_nonce(self.n), ct, ad)
        except InvalidTag as e:
            raise NoiseError("AEAD authentication failed") from e
        self.n += 1
        return pt

    def decrypt_with(self, n: int, ct: bytes) -> bytes:
        """Decrypt with an explicit nonce, not touching the counter (used by oracles)."""
        assert self.k is not None
        try:
            return ChaCha20Poly1305(self.k).decrypt(_nonce(n), ct, b"")
        except InvalidTag as e:
            raise NoiseError("AEAD authentication failed") from e


class SymmetricState:
    def __init__(self) -> None:
        if len(PROTOCOL_NAME) <= 32:
            self.h = PROTOCOL_NAME.ljust(32, b"\x00")
        else:
            self.h = hashlib.sha256(PROTOCOL_NAME).digest()
        self.ck = self.h
        self.cs = CipherState()

    def mix_hash(self, data: bytes) -> None:
        self.h = hashlib.sha256(self.h + data).digest()

    def mix_key(self, ikm: bytes) -> None:
        self.ck, temp_k = _hkdf(self.ck, ikm, 2)
        self.cs = CipherState(temp_k[:32])

    def mix_key_and_hash(self, ikm: bytes) -> None:
        self.ck, temp_h, temp_k = _hkdf(self.ck, ikm, 3)
        self.mix_hash(temp_h)
        self.cs = CipherState(temp_k[:32])

    def encrypt_and_hash(self, pt: bytes) -> bytes:
        ct = self.cs.encrypt(self.h, pt)
        self.mix_hash(ct)
        return ct

    def decrypt_and_hash(self, ct: bytes) -> bytes:
        pt = self.cs.decrypt(self.h, ct)
        self.mix_hash(ct)
        return pt

    def split(self) -> tuple[CipherState, CipherState]:
        k1, k2 = _hkdf(self.ck, b"", 2)
        return CipherState(k1[:32]), CipherState(k2[:32])


def _pub(priv: X25519PrivateKey) -> bytes:
    return priv.public_key().public_bytes(Encoding.Raw, PublicFormat.Raw)


class Responder:
    """NNpsk0 responder:  -> psk, e   <- e, ee."""

    def __init__(self, psk: bytes, prologue: bytes = PROLOGUE, eph: bytes | None = None) -> None:
        if len(psk) != 32:
            raise ValueError("psk must be 32 bytes")
        self.psk = psk
        self.ss = SymmetricState()
        self.ss.mix_hash(prologue)
        self._eph = X25519PrivateKey.from_private_bytes(eph) if eph else X25519PrivateKey.generate()
        self.re: bytes | None = None
        self.rx: CipherState | None = None  # initiator -> responder
        self.tx: CipherState | None = None  # responder -> initiator

    def read_message1(self, msg: bytes, lenient: bool = False) -> bytes:
        """Process the initiator's handshake message; returns its payload.

        lenient=True models a NON-conformant device that does not verify message 1
        (used only to produce a "responder keyed differently" fault for C04).
        """
        if len(msg) < 32 + 16:
            raise NoiseError(f"message 1 too short ({len(msg)})")
        ss = self.ss
        ss.mix_key_and_hash(self.psk)          # psk token
        self.re = msg[:32]                     # e token
        ss.mix_hash(self.re)
        ss.mix_key(self.re)                    # psk mode: e is mixed into ck too
        if lenient:
            try:
                return ss.decrypt_and_hash(msg[32:])
            except NoiseError:
                ss.cs.n += 1
                ss.mix_hash(msg[32:])
                return b""
        return ss.decrypt_and_hash(msg[32:])

    def write_message2(self, payload: bytes = b"") -> bytes:
        assert self.re is not None
        ss = self.ss
        e_pub = _pub(self._eph)                # e token
        ss.mix_hash(e_pub)
        ss.mix_key(e_pub)
        ss.mix_key(self._eph.exchange(X25519PublicKey.from_public_bytes(self.re)))  # ee
        ct = ss.encrypt_and_hash(payload)
        c1, c2 = ss.split()
        self.rx, self.tx = c1, c2
        return e_pub + ct

    def encrypt(self, pt: bytes) -> bytes:
        assert self.tx is not None
        return self.tx.encrypt(b"", pt)

    def decrypt(self, ct: bytes) -> bytes:
        assert self.rx is not None
        return self.rx.decrypt(b"", ct)


class Initiator:
    """NNpsk0 initiator (used only to cross-check the responder at setup)."""

    def __init__(self, psk: bytes, prologue: bytes = PROLOGUE) -> None:
        self.psk = psk
        self.ss = SymmetricState()
        self.ss.mix_hash(prologue)
        self._eph = X25519PrivateKey.generate()
        self.tx: CipherState | None = None
        self.rx: CipherState | None = None

    def write_message1(self, payload: bytes = b"") -> bytes:
        ss = self.ss
        ss.mix_key_and_hash(self.psk)
        e_pub = _pub(self._eph)
        ss.mix_hash(e_pub)
        ss.mix_key(e_pub)
        return e_pub + ss.encrypt_and_hash(payload)

    def read_message2(self, msg: bytes) -> bytes:
        ss = self.ss
        re = msg[:32]
        ss.mix_hash(re)
        ss.mix_key(re)
        ss.mix_key(self._eph.exchange(X25519PublicKey.from_public_bytes(re)))
        pt = ss.decrypt_and_hash(msg[32:])
        c1, c2 = ss.split()
        self.tx, self.rx = c1, c2
        return pt


def selftest() -> dict[str, int]:
    """Cross-check against ourselves and against noiseprotocol's *default* backend."""
    ok = {"self": 0, "vs_noiseprotocol_initiator": 0, "vs_noiseprotocol_responder": 0}
    for _ in range(3):
        psk = os.urandom(32)
        i, r = Initiator(psk), Responder(psk)
        assert r.read_message1(i.write_message1(b"")) == b""
        assert i.read_message2(r.write_message2(b"")) == b""
        for n in range(4):
            m = os.urandom(n * 7)
            assert r.decrypt(i.tx.encrypt(b"", m)) == m
            assert i.rx.decrypt(b"", r.encrypt(m)) == m
        ok["self"] += 1
    try:
        from noise.connection import NoiseConnection  # noqa: PLC0415
    except ImportError:
        return ok
    for _ in range(3):
        psk = os.urandom(32)
        nc = NoiseConnection.from_name(PROTOCOL_NAME)
        nc.set_as_initiator()
        nc.set_psks(psk)
        nc.set_prologue(PROLOGUE)
        nc.start_handshake()
        r = Responder(psk)
        r.read_message1(bytes(nc.write_message()))
        nc.read_message(r.write_message2())
        m = os.urandom(33)
        assert r.decrypt(bytes(nc.encrypt(m))) == m
        assert bytes(nc.decrypt(r.encrypt(m))) == m
        ok["vs_noiseprotocol_initiator"] += 1
        nc = NoiseConnection.from_name(PROTOCOL_NAME)
        nc.set_as_responder()
        nc.set_psks(psk)
        nc.set_prologue(PROLOGUE)
        nc.start_handshake()
        i = Initiator(psk)
        nc.read_message(i.write_message1())
        i.read_message2(bytes(nc.write_message()))
        assert bytes(nc.decrypt(i.tx.encrypt(b"", m))) == m
        assert i.rx.decrypt(b"", bytes(nc.encrypt(m))) == m
        ok["vs_noiseprotocol_responder"] += 1
    return ok


if __name__ == "__main__":
    print(selftest())

"""Worker subprocess: runs one shard of one property and writes its Result as JSON."""

from __future__ import annotations

import argparse
import faulthandler
import importlib
import json
import logging
import sys
import traceback


def main() -> int:
    ap = argparse.ArgumentParser()
    ap.add_argument("prop")
    ap.add_argument("--shard", type=int, default=0)
    ap.add_argument("--nshards", type=int, default=1)
    ap.add_argument("--tier", default="quick")
    ap.add_argument("--seed", type=int, default=0)
    ap.add_argument("--out", required=True)
    ap.add_argument("--watchdog", type=int, default=600)
    a = ap.parse_args()

    faulthandler.dump_traceback_later(a.watchdog, exit=True)
    from vf import common, simclock

    simclock.install()       # before the library is imported: `from time import monotonic` in library code binds the dispatcher

    common.setup_path()
    from vf import logcfg

    logcfg.install()
    mod = importlib.import_module(f"vf.props.{a.prop.lower()}")
    ctx = common.Ctx(a.prop, a.shard, a.nshards, a.tier, a.seed)
    from vf import linereach

    linereach.start(common.REPO)
    try:
        mod.shard(ctx)
    except Exception:  # noqa: BLE001
        ctx.res.inconclusive.append("harness exception: " + traceback.format_exc()[-1500:])
    ctx.res.sets.setdefault("library_lines_reached", set()).update(linereach.stop())
    ctx.res.count("advisory/library_log_records_formatted", logcfg.RECORDS["n"])
    ctx.res.count(f"interpreter/shards-with-optimize={sys.flags.optimize}")
    import warnings as _w
    import os as _os

    ctx.res.count("interpreter/shards-with-protobuf-backend=" + _os.environ.get("PROTOCOL_BUFFERS_PYTHON_IMPLEMENTATION", "default(upb)"))

    ctx.res.count("interpreter/shards-with-DeprecationWarning-as-error=" + str(any(f[0] == "error" and f[2] is DeprecationWarning for f in _w.filters)))
    rot = sys.modules.get("vf.sim.rotation")
    for k, n in (rot.VALUE_COUNTS.items() if rot is not None else ()):
        ctx.res.count(f"harness-rotation/{k}", n)
    for fe in logcfg.FORMAT_ERRORS:
        ctx.res.seen("advisory_log_format_errors", fe)
    with open(a.out, "w") as f:
        json.dump(common.jsonable(ctx.res.to_json()), f)
    faulthandler.cancel_dump_traceback_later()
    return 0


if __name__ == "__main__":
    sys.exit(main())

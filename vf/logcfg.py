"""Logging configuration of the library under test inside the harness.

Production runs the `aioesphomeapi` logger at INFO/WARNING; users troubleshooting switch it to DEBUG.  Branches guarded by
`_LOGGER.isEnabledFor(logging.DEBUG)` (and the `_debug_enabled` flags derived from it) are code under test, so cases rotate between the two
levels (vf.sim.rotation / engine W).  Records go to a sink that FORMATS them (a log call with broken arguments is counted) and drops them.
"""

from __future__ import annotations

import logging

FORMAT_ERRORS: list[str] = []
RECORDS = {"n": 0}


class _Sink(logging.Handler):
    def emit(self, record: logging.LogRecord) -> None:
        RECORDS["n"] += 1
        try:
            record.getMessage()
        except Exception as e:  # noqa: BLE001
            if len(FORMAT_ERRORS) < 20:
                FORMAT_ERRORS.append(f"{record.pathname}:{record.lineno}: {e!r}")


_installed = False


def install() -> None:
    global _installed
    if _installed:
        return
    _installed = True
    logging.disable(logging.NOTSET)
    root = logging.getLogger()
    root.setLevel(logging.CRITICAL + 1)       # everything that is not the library under test stays silent
    lg = logging.getLogger("aioesphomeapi")
    lg.handlers[:] = [_Sink()]
    lg.propagate = False
    lg.setLevel(logging.WARNING)
    logging.getLogger("asyncio").setLevel(logging.CRITICAL + 1)


def set_debug(flag: bool, quiet_modules: tuple[str, ...] = ()) -> None:
    """flag: level of the package logger.  quiet_modules: sub-loggers kept at INFO although the package is at DEBUG (`aioesphomeapi: debug` with
    `aioesphomeapi.connection: info` is how a user silences one chatty module) - the package's loggers then disagree about DEBUG."""
    install()
    logging.getLogger("aioesphomeapi").setLevel(logging.DEBUG if flag else logging.WARNING)
    for name in ("aioesphomeapi.connection", "aioesphomeapi._frame_helper.base", "aioesphomeapi.reconnect_logic", "aioesphomeapi.client"):
        logging.getLogger(name).setLevel(logging.INFO if (flag and name in quiet_modules) else logging.NOTSET)

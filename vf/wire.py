"""Engine W: drive the real frame helpers directly against recording doubles.

RecConn records exactly the boundary named in the properties
(process_packet / report_fatal_error); RecTransport has the semantics of
asyncio's _SelectorSocketTransport that the helpers rely on (CPython 3.12
selector_events.py): an exception escaping data_received is followed by
connection_lost(exc) and no further data_received; close() is idempotent and is
followed by connection_lost(None); writes after close are dropped.
"""

from __future__ import annotations

import asyncio
import itertools
from typing import Any, Iterator

_loop: asyncio.AbstractEventLoop | None = None


def ensure_loop() -> asyncio.AbstractEventLoop:
    """The helpers call get_event_loop().create_future(); the loop never runs."""
    global _loop
    if _loop is None:
        _loop = asyncio.new_event_loop()
        asyncio.set_event_loop(_loop)
    return _loop


class bytes_sub(bytes):
    """A bytes subclass (the helpers must not treat it as plain bytes blindly)."""


class RecTransport:
    def __init__(self) -> None:
        self.writes: list[bytes] = []
        self.writes_after_close: list[bytes] = []
        self.closing = False
        self.close_calls = 0
        self.lost_delivered = False
        self.pending_lost: tuple[bool, BaseException | None] = (False, None)
        self.write_raises: BaseException | None = None
        self.recent_objects: list[tuple[Any, bytes]] = []   # (object handed to write(), its content at that moment), newest last

    def changed_after_write(self) -> list[int]:
        """A real transport may keep the object it was given until the socket accepts it (the selector transport of 3.12 queues a memoryview
        of it, without copying): its content must still be what it was when write() was called.  Returns how many writes ago it changed."""
        out = []
        for age, (obj, snap) in enumerate(reversed(self.recent_objects)):
            try:
                same = bytes(obj) == snap
            except Exception:  # noqa: BLE001  (released memoryview etc.)
                same = False
            if not same:
                out.append(age)
        return out

    def write(self, data: Any) -> None:
        if not isinstance(data, (bytes, bytearray, memoryview)):
            raise TypeError(f"data argument must be a bytes-like object, not {type(data).__name__!r}")
        if self.write_raises is not None:
            raise self.write_raises
        if self.closing:
            self.writes_after_close.append(bytes(data))
            return
        self.writes.append(bytes(data))
        self.recent_objects.append((data, self.writes[-1]))
        if len(self.recent_objects) > 6:
            del self.recent_objects[0]

    def close(self) -> None:
        self.close_calls += 1
        if self.closing:
            return
        self.closing = True
        self.pending_lost = (True, None)

    def abort(self) -> None:
        self.close()

    def is_closing(self) -> bool:
        return self.closing

    def get_extra_info(self, name: str, default: Any = None) -> Any:
        return default

    # the rest of the asyncio.Transport surface a protocol may legitimately use (flow control, reading control): accepted and recorded,
    # so that library code calling them runs instead of crashing the harness
    def set_write_buffer_limits(self, high: Any = None, low: Any = None) -> None:
        self.write_limits = (low, high)

    def get_write_buffer_limits(self) -> tuple[int, int]:
        low, high = getattr(self, "write_limits", (None, None))
        high = 65536 if high is None else high
        return (high // 4 if low is None else low, high)

    def get_write_buffer_size(self) -> int:
        return 0        # this transport "sends" at once: nothing is ever queued

    def pause_reading(self) -> None:
        self.reading_paused = True

    def resume_reading(self) -> None:
        self.reading_paused = False

    def is_reading(self) -> bool:
        return not getattr(self, "reading_paused", False) and not self.closing

    def can_write_eof(self) -> bool:
        return True

    def write_eof(self) -> None:
        self.wrote_eof = True

    def writelines(self, list_of_data: Any) -> None:
        self.write(b"".join(bytes(x) for x in list_of_data))

    def get_protocol(self) -> Any:
        return getattr(self, "protocol", None)

    def set_protocol(self, protocol: Any) -> None:
        self.protocol = protocol


class RecConn:
    """Stands in for APIConnection at the helper boundary."""

    def __init__(self) -> None:
        self.packets: list[tuple[int, bytes, int]] = []  # (type, payload, index of data_received call)
        self.fatal: list[tuple[BaseException, int]] = []
        self.call_index = -1
        self.helper: Any = None
        self.packet_types: list[type] = []

    def process_packet(self, msg_type: int, data: Any) -> None:
        self.packet_types.append(type(data))
        # keep the object itself: a retained alias of a caller buffer must show up later
        self.packets.append((msg_type, data, self.call_index))

    def report_fatal_error(self, err: BaseException) -> None:
        first = not self.fatal
        self.fatal.append((err, self.call_index))
        if first and self.helper is not None:
            # APIConnection._cleanup closes the frame helper on the first fatal error
            self.helper.close()


class Driver:
    """Feeds chunks to a helper the way the asyncio transport would."""

    def __init__(self, helper: Any, conn: RecConn, transport: RecTransport) -> None:
        self.h = helper
        self.c = conn
        self.t = transport
        self.escaped: list[BaseException] = []
        self.stopped_at: int | None = None
        self.ready_at: int | None = None
        self.ready_exc: BaseException | None = None
        self.n_calls = 0

    def start(self) -> None:
        self.h.connection_made(self.t)
        self._after(-1)

    def _after(self, j: int) -> None:
        pend, exc = self.t.pending_lost
        if pend and not self.t.lost_delivered:
            self.t.lost_delivered = True
            self.t.closing = True
            self.h.connection_lost(exc)
        fut = self.h.ready_future
        if self.ready_at is None and fut.done():
            self.ready_at = j
            self.ready_exc = fut.exception()

    def feed(self, chunk: Any) -> bool:
        """Deliver one chunk; returns False once the transport stopped reading."""
        if self.t.closing or self.t.lost_delivered:
            if self.stopped_at is None:
                self.stopped_at = self.n_calls
            return False
        j = self.n_calls
        self.n_calls += 1
        self.c.call_index = j
        try:
            self.h.data_received(chunk)
        except BaseException as exc:  # noqa: BLE001  (asyncio catches BaseException here)
            self.escaped.append(exc)
            if not self.t.lost_delivered and not self.t.pending_lost[0]:
                self.t.pending_lost = (True, exc)
            elif not self.t.lost_delivered:
                # close() was requested and an exception escaped: _force_close wins
                self.t.pending_lost = (True, exc)
        self._after(j)
        return True

    def eof(self) -> None:
        if self.t.closing:
            return
        self.c.call_index = self.n_calls
        keep = self.h.eof_received()
        if not keep:
            self.t.close()
        self._after(self.n_calls)


def _rotate_logger() -> None:
    """Every third helper is built and driven with the library's logger at DEBUG (branches under `isEnabledFor(DEBUG)` are code under test)."""
    from vf import logcfg  # noqa: PLC0415
    from vf.sim import monitors, rotation  # noqa: PLC0415

    if monitors.CURRENT is None and len(rotation.LAST.get("helper_logger_debug", ())) >= 4:
        rotation.new_case()      # engine W has no Sim marking case boundaries: keep only the last few decisions (a case builds at most a few helpers)
    logcfg.set_debug(bool(rotation.decide("helper_logger_debug", (False, False, True))))


def _rotate_log_name(log_name: str) -> str:
    """The name a helper is told to log under is presentation only: every fourth helper gets one with characters special to %-formatting,
    str.format and regular expressions (an application's display name, a scoped IPv6 literal such as fe80::1%eth0)."""
    from vf.sim import rotation  # noqa: PLC0415

    if log_name == "dev" and rotation.decide("helper_log_name", ("plain", "plain", "plain", "special-characters")) == "special-characters":
        return "boiler 50% duty %s {0} @ fe80::1%eth0"
    return log_name


def make_plain(client_info: str = "verif", log_name: str = "dev") -> tuple[Any, RecConn, RecTransport, Driver]:
    from aioesphomeapi._frame_helper.plain_text import APIPlaintextFrameHelper

    ensure_loop()
    _rotate_logger()
    c = RecConn()
    h = APIPlaintextFrameHelper(connection=c, client_info=client_info, log_name=_rotate_log_name(log_name))
    c.helper = h
    t = RecTransport()
    return h, c, t, Driver(h, c, t)


def make_noise(psk_b64: str, expected_name: str | None, client_info: str = "verif",
               log_name: str = "dev") -> tuple[Any, RecConn, RecTransport, Driver]:
    from aioesphomeapi._frame_helper.noise import APINoiseFrameHelper

    ensure_loop()
    _rotate_logger()
    c = RecConn()
    h = APINoiseFrameHelper(connection=c, noise_psk=psk_b64, expected_name=expected_name,
                            client_info=client_info, log_name=_rotate_log_name(log_name))
    c.helper = h
    t = RecTransport()
    return h, c, t, Driver(h, c, t)


# ------------------------------------------------------------------ chunking

BUF_KINDS = ("bytes", "bytearray", "memoryview", "bytes_sub", "memoryview_ro", "memoryview_H", "array_H", "memoryview_I", "memoryview_2d", "ctypes_u16")


def wrap_chunk(data: bytes, kind: str) -> tuple[Any, Any]:
    """Return (object to pass, scrubber) – the scrubber overwrites a mutable buffer afterwards."""
    if kind == "bytes":
        return data, None
    if kind == "bytes_sub":
        return bytes_sub(data), None
    if kind == "memoryview_ro":
        return memoryview(data), None
    ba = bytearray(data)
    if kind == "bytearray":
        return ba, ba
    n = len(ba)
    # bytes-like objects whose items are wider than one byte / that have more than one dimension: len() counts items, not bytes
    if kind == "memoryview_H" and n and n % 2 == 0:
        return memoryview(ba).cast("H"), ba
    if kind == "memoryview_I" and n and n % 4 == 0:
        return memoryview(ba).cast("I"), ba
    if kind == "memoryview_2d" and n >= 2 and n % 2 == 0:
        return memoryview(ba).cast("B", shape=[2, n // 2]), ba
    if kind == "array_H" and n and n % 2 == 0:
        import array  # noqa: PLC0415

        a = array.array("H")
        a.frombytes(bytes(ba))
        return a, None
    if kind == "ctypes_u16" and n and n % 2 == 0:
        import ctypes  # noqa: PLC0415

        return (ctypes.c_uint16 * (n // 2)).from_buffer(ba), ba
    return memoryview(ba), ba


def scrub(ba: bytearray | None) -> None:
    if ba is not None:
        for i in range(len(ba)):
            ba[i] = 0xEE


def cuts_to_chunks(stream: bytes, cuts: tuple[int, ...] | list[int]) -> list[bytes]:
    out = []
    prev = 0
    for c in cuts:
        out.append(stream[prev:c])
        prev = c
    out.append(stream[prev:])
    return out


def chunkings(n: int, boundaries: list[int], rng: Any, *, n_random: int, pairs: int,
              exhaustive_upto: int, single_cap: int = 400) -> Iterator[tuple[str, tuple[int, ...]]]:
    """Yield (label, sorted cut positions) for a stream of n bytes.

    boundaries: interesting offsets (frame ends, header ends) – cuts at and next to them are always tried.
    """
    if n <= 1:
        yield "whole", ()
        return
    yield "whole", ()
    inner = [b for b in boundaries if 0 < b < n]
    if inner:
        yield "per-frame", tuple(sorted(set(inner)))
    if n <= exhaustive_upto:
        for mask in range(1, 1 << (n - 1)):
            yield "exhaustive", tuple(i + 1 for i in range(n - 1) if mask >> i & 1)
        return
    if n <= 4096:
        yield "bytewise", tuple(range(1, n))
    singles: set[int] = set()
    if n - 1 <= single_cap:
        singles.update(range(1, n))
    else:
        for b in inner:
            for d in (-2, -1, 0, 1, 2, 3):
                if 0 < b + d < n:
                    singles.add(b + d)
        singles.update((1, 2, 3, n - 1, n - 2))
        while len(singles) < single_cap:
            singles.add(rng.randrange(1, n))
    for c in sorted(singles):
        yield "single", (c,)
    near = sorted({min(max(b + d, 1), n - 1) for b in inner for d in (-1, 0, 1)} | {1, n - 1})
    done = 0
    for a, b in itertools.combinations(near, 2):
        if done >= pairs:
            break
        yield "pair-near", (a, b)
        done += 1
    for _ in range(pairs):
        a, b = sorted(rng.sample(range(1, n), 2)) if n > 2 else (1, 1)
        if a != b:
            yield "pair", (a, b)
    for _ in range(n_random):
        k = rng.randint(1, min(n - 1, 12))
        yield "random", tuple(sorted(rng.sample(range(1, n), k)))

"""Shared plumbing: repo location, seeds, sharding over subprocesses, evidence, verdicts.

Every check is `python -m vf.main <Cxx> --tier quick|thorough`.  The main process
spawns up to 16 worker subprocesses (`python -m vf.worker ...`), each of which
imports the property module and runs `shard(ctx)`; results are merged here.

Exit codes: 0 held on everything explored, 1 VIOLATION, 2 INCONCLUSIVE.
"""

from __future__ import annotations

import hashlib
import json
import os
import random
import subprocess
import sys
import tempfile
import time
from pathlib import Path
from typing import Any

VERIF = Path(__file__).resolve().parent.parent
REPO = Path(os.environ.get("VERIF_REPO", "/repo")).resolve()
PY = os.environ.get("VERIF_PY", "/venv/bin/python")

MAX_VIOLATIONS_KEPT = 40
MAX_SAMPLES = 8


def setup_path() -> None:
    """Make `import aioesphomeapi` resolve to the tree under check, live."""
    r = str(REPO)
    if r in sys.path:
        sys.path.remove(r)
    sys.path.insert(0, r)
    v = str(VERIF)
    if v not in sys.path:
        sys.path.insert(1, v)
    import aioesphomeapi  # noqa: PLC0415

    f = Path(aioesphomeapi.__file__).resolve()
    if REPO not in f.parents:
        raise SystemExit(f"INCONCLUSIVE reason=aioesphomeapi imported from {f}, not {REPO}")


def env_seed() -> int:
    try:
        return int(os.environ.get("VERIF_SEED", "0"))
    except ValueError:
        return 0


class Ctx:
    """Per-shard context handed to a property's shard()."""

    def __init__(self, prop: str, shard: int, nshards: int, tier: str, seed: int):
        self.prop = prop
        self.shard = shard
        self.nshards = nshards
        self.tier = tier
        self.seed = seed
        self.rng = random.Random(f"{prop}/{seed}/{shard}")
        self.res = Result()

    @property
    def thorough(self) -> bool:
        return self.tier == "thorough"

    def mine(self, index: int) -> bool:
        """Round-robin assignment of an enumerated case index to this shard."""
        return index % self.nshards == self.shard


class Result:
    """What a shard (and, merged, a check) observed."""

    def __init__(self) -> None:
        self.evaluations = 0
        self.sigs: set[str] = set()
        self.violations: list[dict[str, Any]] = []
        self.n_violations = 0
        self.samples: list[Any] = []
        self.counters: dict[str, int] = {}
        self.inconclusive: list[str] = []
        self.notes: dict[str, Any] = {}
        self.sets: dict[str, set[str]] = {}

    # -- recording ---------------------------------------------------------
    def count(self, name: str, n: int = 1) -> None:
        self.counters[name] = self.counters.get(name, 0) + n

    def seen(self, name: str, value: Any) -> None:
        self.sets.setdefault(name, set()).add(str(value))

    def sig(self, *parts: Any) -> None:
        """Register one distinct non-trivial case (hash of its canonical form)."""
        h = hashlib.sha1(repr(parts).encode()).hexdigest()[:16]
        self.sigs.add(h)

    def sample(self, s: Any) -> None:
        if len(self.samples) < MAX_SAMPLES:
            self.samples.append(s)

    def violation(self, key: str, what: str, case: Any, **extra: Any) -> None:
        self.n_violations += 1
        self.count("violations/" + key)
        # keep the first few per key so that distinct mechanisms are all shown
        same = sum(1 for v in self.violations if v["key"] == key)
        if same < 3 and len(self.violations) < MAX_VIOLATIONS_KEPT:
            dev = sys.modules.get("vf.sim.device")
            if dev is not None and "chunk_policy" not in extra:
                extra["chunk_policy"] = getattr(dev, "LAST_POLICY", "as-written")   # how the simulated device's stream was cut (needed to replay)
            rot = sys.modules.get("vf.sim.rotation")
            if rot is not None and "rotation" not in extra:
                extra["rotation"] = rot.snapshot()   # the other rotating harness choices of this case (client debug flag, hello fields)
            self.violations.append({"key": key, "what": what, "case": case, **extra})

    # -- (de)serialisation ---------------------------------------------------
    def to_json(self) -> dict[str, Any]:
        return {
            "evaluations": self.evaluations,
            "sigs": sorted(self.sigs),
            "violations": self.violations,
            "n_violations": self.n_violations,
            "samples": self.samples,
            "counters": self.counters,
            "inconclusive": self.inconclusive,
            "notes": self.notes,
            "sets": {k: sorted(v) for k, v in self.sets.items()},
        }

    def merge_json(self, d: dict[str, Any]) -> None:
        self.evaluations += d["evaluations"]
        self.sigs.update(d["sigs"])
        self.n_violations += d["n_violations"]
        for v in d["violations"]:
            same = sum(1 for x in self.violations if x["key"] == v["key"])
            if same < 3 and len(self.violations) < MAX_VIOLATIONS_KEPT:
                self.violations.append(v)
        for s in d["samples"]:
            self.sample(s)
        for k, n in d["counters"].items():
            self.count(k, n)
        self.inconclusive.extend(d["inconclusive"])
        for k, v in d["notes"].items():
            if k not in self.notes:
                self.notes[k] = v
            elif isinstance(v, list) and isinstance(self.notes[k], list):
                for item in v:
                    if item not in self.notes[k] and len(self.notes[k]) < 200:
                        self.notes[k].append(item)
        for k, v in d["sets"].items():
            self.sets.setdefault(k, set()).update(v)


def jsonable(o: Any) -> Any:
    if isinstance(o, (bytes, bytearray, memoryview)):
        b = bytes(o)
        return {"hex": b.hex()} if len(b) <= 4096 else {"hex": b[:256].hex() + "...", "len": len(b)}
    if isinstance(o, dict):
        return {str(k): jsonable(v) for k, v in o.items()}
    if isinstance(o, (list, tuple, set, frozenset)):
        return [jsonable(x) for x in o]
    if isinstance(o, (str, int, float, bool)) or o is None:
        return o
    return repr(o)


def load_known_findings() -> list[dict[str, Any]]:
    p = VERIF / "known_findings.json"
    if not p.exists():
        return []
    return json.loads(p.read_text())


PURE_PYTHON_PROTOBUF_SHARDS = {"C12", "C04", "C08"}


def worker_env() -> dict[str, str]:
    env = dict(os.environ)
    env["PYTHONPATH"] = f"{REPO}:{VERIF}"
    env["PYTHONDONTWRITEBYTECODE"] = "1"
    env["PYTHONHASHSEED"] = "0"
    env["VERIF_REPO"] = str(REPO)
    return env


def run_shards(prop: str, tier: str, seed: int, nshards: int, budget_s: float) -> Result:
    """Run all shards as subprocesses, in parallel, and merge."""
    merged = Result()
    tmp = Path(tempfile.mkdtemp(prefix=f"vf-{prop}-"))
    procs = []
    try:
        for i in range(nshards):
            out = tmp / f"shard{i}.json"
            # every fourth shard runs its interpreter with -O (assert statements stripped, __debug__ False), as deployments started with
            # PYTHONOPTIMIZE do: library code must not depend on an assert for its effects (the harness's own asserts carry none)
            opt = ["-O"] if (i + seed) % 4 == 3 else []
            # ... and every fourth shard (another one) turns DeprecationWarnings into errors, as test suites and strict deployments do
            # (PYTHONWARNINGS=error): a warning raised in the middle of library code must not leave it half done.  (The one warning the
            # unchanged tree itself produces - asyncio.get_event_loop() for a client built outside a running loop - stays a warning.)
            if (i + seed) % 4 == 1:
                opt += ["-W", "error::DeprecationWarning", "-W", "ignore:There is no current event loop:DeprecationWarning"]
            cmd = [
                PY, *opt, "-X", "faulthandler", "-W", "error::RuntimeWarning", "-m", "vf.worker",
                prop, "--shard", str(i), "--nshards", str(nshards), "--tier", tier,
                "--seed", str(seed), "--out", str(out), "--watchdog", str(int(budget_s)),
            ]
            log = open(tmp / f"shard{i}.log", "wb")
            env_i = worker_env()
            if (i + seed) % 4 == 2 and prop in PURE_PYTHON_PROTOBUF_SHARDS:
                # the protobuf runtime has two back ends that differ in what they raise for the same malformed payload (upb: DecodeError; pure
                # Python: also UnicodeDecodeError / ValueError): the properties that speak about undecodable payloads run a quarter of their
                # shards on the pure-Python one
                env_i["PROTOCOL_BUFFERS_PYTHON_IMPLEMENTATION"] = "python"
            procs.append((i, out, log, subprocess.Popen(cmd, env=env_i, cwd=str(VERIF), stdout=log, stderr=subprocess.STDOUT)))
        deadline = time.monotonic() + budget_s + 30
        for i, out, log, p in procs:
            try:
                rc = p.wait(timeout=max(1.0, deadline - time.monotonic()))
            except subprocess.TimeoutExpired:
                p.kill()
                p.wait()
                rc = -9
            log.close()
            if rc != 0 or not out.exists():
                tail = (tmp / f"shard{i}.log").read_bytes()[-1500:].decode(errors="replace")
                merged.inconclusive.append(f"shard {i} exit={rc}: {tail}")
                continue
            merged.merge_json(json.loads(out.read_text()))
    finally:
        for _, _, log, p in procs:
            if p.poll() is None:
                p.kill()
            try:
                log.close()
            except Exception:  # noqa: BLE001
                pass
        for f in tmp.iterdir():
            f.unlink()
        tmp.rmdir()
    return merged


def write_replay(prop: str, v: dict[str, Any]) -> str:
    d = VERIF / "replays"
    d.mkdir(exist_ok=True)
    h = hashlib.sha1(json.dumps(jsonable(v), sort_keys=True).encode()).hexdigest()[:12]
    p = d / f"{prop}-{h}.json"
    p.write_text(json.dumps(jsonable({"property": prop, **v}), indent=1, sort_keys=True))
    return str(p)


def finish(prop: str, tier: str, seed: int, level: str, rule: str, res: Result, wall: float,
           assumptions: list[str], exhaustive: Any = None, min_evals: int = 1,
           extra_cov: dict[str, Any] | None = None) -> int:
    """Classify violations against known findings, write evidence, print verdict, return exit code."""
    known = [k for k in load_known_findings() if k.get("property") == prop and k.get("status") == "known"]
    known_keys = {k["key"]: k for k in known}
    new_v = [v for v in res.violations if v["key"] not in known_keys]
    known_seen: dict[str, int] = {}
    for name, n in res.counters.items():
        if name.startswith("violations/"):
            key = name[len("violations/"):]
            if key in known_keys:
                known_seen[key] = n
    n_new = sum(n for name, n in res.counters.items()
                if name.startswith("violations/") and name[len("violations/"):] not in known_keys)

    if res.evaluations < min_evals:
        res.inconclusive.append(f"only {res.evaluations} evaluations (< floor {min_evals})")
    if len(res.sigs) < 2 and not res.inconclusive:
        res.inconclusive.append("fewer than 2 distinct non-trivial cases observed")

    # line reach: the anchored mechanisms of the property must have been exercised
    reached = res.sets.pop("library_lines_reached", set())
    try:
        from vf import linereach  # noqa: PLC0415

        anchors, unreached = linereach.anchor_report(prop, reached, REPO, VERIF)
    except Exception as e:  # noqa: BLE001
        anchors, unreached = [{"note": f"anchor report failed: {e!r}"}], []
    for u in unreached:
        res.inconclusive.append(f"anchored mechanism never reached by any execution: {u}")
    files_reached: dict[str, int] = {}
    for item in reached:
        f = item.rpartition(":")[0]
        files_reached[f] = files_reached.get(f, 0) + 1

    coverage: dict[str, Any] = {
        "evaluations": res.evaluations,
        "distinct_nontrivial": len(res.sigs),
        "rule": rule,
        "samples": jsonable(res.samples) or ["<none>"],
        "monitor_counters": {k: v for k, v in sorted(res.counters.items())},
        "observed_sets": {k: sorted(v)[:80] for k, v in sorted(res.sets.items())},
        "observed_set_sizes": {k: len(v) for k, v in sorted(res.sets.items())},
        "notes": jsonable(res.notes),
        "known_findings_seen": known_seen,
        "anchors_reached": anchors,
        "library_lines_reached_per_file": dict(sorted(files_reached.items())),
        "inconclusive": res.inconclusive[:10],
    }
    if exhaustive is not None:
        if isinstance(exhaustive, bool):
            coverage["exhaustive"] = exhaustive
        else:
            coverage["exhaustive"] = False
            coverage["exhaustive_subspaces"] = exhaustive
    if extra_cov:
        coverage.update(jsonable(extra_cov))
    ev = {
        "property_id": prop,
        "tier": tier,
        "seed": seed,
        "level": level,
        "coverage": coverage,
        "assumptions": assumptions,
        "wall_s": round(wall, 2),
        "violations": n_new,
        "violation_samples": jsonable(new_v[:10]),
    }
    # runs against a scratch copy (mutants, seeded changes) must never overwrite committed evidence
    evdir = VERIF / ("evidence" if REPO == Path("/repo") else "evidence-scratch")
    evdir.mkdir(exist_ok=True)
    (evdir / f"{prop}.json").write_text(json.dumps(ev, indent=1, sort_keys=True))

    print(f"[{prop}] tier={tier} seed={seed} evaluations={res.evaluations} "
          f"distinct_nontrivial={len(res.sigs)} wall={wall:.1f}s")
    for k in sorted(res.counters):
        if not k.startswith("violations/"):
            print(f"    {k} = {res.counters[k]}")
    for k, v in sorted(res.sets.items()):
        print(f"    |{k}| = {len(v)}")
    for key, n in sorted(known_seen.items()):
        print(f"KNOWN-FINDING: property={prop} {known_keys[key]['what']} [key={key}, seen {n}x]")
    if new_v or n_new:
        for v in new_v[:10]:
            path = write_replay(prop, v)
            print(f"VIOLATION property={prop} replay={path}")
            print(f"    key={v['key']}: {v['what']}")
        return 1
    if res.inconclusive:
        for r in res.inconclusive[:5]:
            print(f"INCONCLUSIVE property={prop} reason={r[:600]}")
        return 2
    print(f"HELD property={prop} on {res.evaluations} executions ({len(res.sigs)} distinct non-trivial)")
    return 0

"""Engine W helpers for Noise sessions: a conformant server built on refnoise/refcodec."""

from __future__ import annotations

import base64
from dataclasses import dataclass, field
from typing import Any

from vf import refcodec, refnoise, wire


@dataclass
class ServerStream:
    """Bytes a conformant responder sends, with the layout needed by the oracles."""

    hello: bytes = b""
    handshake: bytes = b""
    data_frames: list[bytes] = field(default_factory=list)
    messages: list[tuple[int, bytes]] = field(default_factory=list)

    @property
    def stream(self) -> bytes:
        return self.hello + self.handshake + b"".join(self.data_frames)

    def frame_ends(self) -> list[int]:
        out = []
        pos = 0
        for f in [self.hello, self.handshake, *self.data_frames]:
            pos += len(f)
            out.append(pos)
        return out


class NoiseServer:
    """Conformant NNpsk0 responder speaking the ESPHome noise framing."""

    def __init__(self, psk: bytes, name: bytes | None = b"dev") -> None:
        self.psk = psk
        self.name = name
        self.resp = refnoise.Responder(psk)
        self.client_frames = refcodec.NoiseOuterDecoder()
        self.got_hello = False
        self.got_handshake = False
        self.client_payload: bytes | None = None

    def hello_body(self) -> bytes:
        # chosen protocol 0x01, then (2022.2+) the NUL-terminated node name
        if self.name is None:
            return b"\x01"
        return b"\x01" + self.name + b"\x00"

    def accept_client_first_write(self, data: bytes, lenient: bool = False) -> None:
        """Parse `01 00 00` hello + handshake frame; raises if the client is not a conformant initiator."""
        frames = self.client_frames.feed(data)
        if len(frames) != 2:
            raise refcodec.DecodeError(f"client first write has {len(frames)} frames, want hello+handshake")
        if frames[0] != b"":
            raise refcodec.DecodeError(f"client hello body {frames[0].hex()} (want empty)")
        hs = frames[1]
        if hs[:1] != b"\x00":
            raise refcodec.DecodeError(f"handshake frame indicator {hs[:1].hex()}")
        self.client_payload = self.resp.read_message1(hs[1:], lenient=lenient)
        self.got_hello = self.got_handshake = True

    def server_handshake(self, stream: ServerStream) -> None:
        stream.hello = refcodec.enc_noise_outer(self.hello_body())
        stream.handshake = refcodec.enc_noise_outer(b"\x00" + self.resp.write_message2(b""))

    def add_message(self, stream: ServerStream, msg_type: int, payload: bytes) -> None:
        ct = self.resp.encrypt(refcodec.enc_noise_inner(msg_type, payload))
        stream.data_frames.append(refcodec.enc_noise_outer(ct))
        stream.messages.append((msg_type, payload))

    def decrypt_client_frames(self, data: bytes) -> list[tuple[int, bytes]]:
        """Decrypt whole frames written by the client (sequential nonce = continuity check)."""
        out = []
        for body in self.client_frames.feed(data):
            out.append(refcodec.dec_noise_inner(self.resp.decrypt(body)))
        if self.client_frames.buf:
            raise refcodec.DecodeError(f"{len(self.client_frames.buf)} trailing bytes after whole frames in one write")
        return out


def b64(psk: bytes) -> str:
    return base64.b64encode(psk).decode()


def open_session(psk: bytes, name: bytes | None = b"dev", expected_name: str | None = None) -> tuple[Any, wire.RecConn, wire.RecTransport, wire.Driver, NoiseServer]:
    """Real APINoiseFrameHelper + conformant server, handshake completed in one chunk each."""
    h, c, t, d = wire.make_noise(b64(psk), expected_name)
    d.start()
    srv = NoiseServer(psk, name)
    assert len(t.writes) == 1, f"{len(t.writes)} writes in connection_made"
    srv.accept_client_first_write(t.writes[0])
    st = ServerStream()
    srv.server_handshake(st)
    d.feed(st.hello)
    d.feed(st.handshake)
    return h, c, t, d, srv

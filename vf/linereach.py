"""Line-reach monitor (always on in every worker): which lines of the library were executed during a shard.

sys.monitoring LINE events with per-location DISABLE - every source line reports once per process and is then switched off, so the
cost is one callback per distinct line.  The merged set is compared with the anchor ranges of the property (properties.jsonl,
`anchors.mechanism[].where` / `anchors.state[].where`): an anchored mechanism none of whose lines was reached makes the run INCONCLUSIVE
(the deciding code was never exercised, whatever the oracles said).
"""

from __future__ import annotations

import ast
import json
import sys
from pathlib import Path
from typing import Any

TOOL = 3  # any free tool id (0-5); 3 is not used by debuggers/profilers/coverage conventions
_reached: set[tuple[str, int]] = set()
_prefix = ""
_on = False


def start(repo: Path) -> None:
    global _prefix, _on
    mon = getattr(sys, "monitoring", None)
    if mon is None or _on:
        return
    _prefix = str(repo / "aioesphomeapi") + "/"
    try:
        mon.use_tool_id(TOOL, "vf-linereach")
    except ValueError:
        return
    disable = mon.DISABLE
    reached = _reached
    prefix = _prefix

    def on_line(code: Any, line: int) -> Any:
        fn = code.co_filename
        if fn.startswith(prefix):
            reached.add((fn[len(prefix):], line))
        return disable

    mon.register_callback(TOOL, mon.events.LINE, on_line)
    mon.set_events(TOOL, mon.events.LINE)
    _on = True


def stop() -> list[str]:
    mon = getattr(sys, "monitoring", None)
    if mon is not None and _on:
        mon.set_events(TOOL, 0)
    return sorted(f"{f}:{n}" for f, n in _reached)


def parse_where(where: str) -> tuple[str, list[tuple[int, int]]]:
    """'aioesphomeapi/connection.py:593-617,661-684' -> ('connection.py', [(593,617),(661,684)])"""
    path, _, spans = where.partition(":")
    rel = path.split("aioesphomeapi/", 1)[-1]
    out = []
    for sp in spans.split(","):
        sp = sp.strip()
        if not sp:
            continue
        a, _, b = sp.partition("-")
        try:
            out.append((int(a), int(b or a)))
        except ValueError:
            continue
    return rel, out


def executable_lines(path: Path) -> set[int]:
    try:
        code = compile(path.read_text(), str(path), "exec")
    except (OSError, SyntaxError):
        return set()
    lines: set[int] = set()
    stack = [code]
    while stack:
        c = stack.pop()
        for _s, _e, ln in c.co_lines():
            if ln is not None:
                lines.add(ln)
        for k in c.co_consts:
            if hasattr(k, "co_lines"):
                stack.append(k)
    return lines


def functions_overlapping(path: Path, spans: list[tuple[int, int]]) -> list[tuple[str, int, int]]:
    """Functions/methods of the CURRENT file whose body overlaps the anchor spans (the anchors were written against the pinned commit;
    repairs shifted some lines by a few, so whole functions are taken rather than exact line ranges)."""
    try:
        tree = ast.parse(path.read_text())
    except (OSError, SyntaxError):
        return []
    out = []
    for node in ast.walk(tree):
        if isinstance(node, (ast.FunctionDef, ast.AsyncFunctionDef)):
            a, b = node.lineno, node.end_lineno or node.lineno
            if any(not (b < s or a > e) for s, e in spans):
                body = node.body[0].lineno if node.body else a + 1
                # (first body line - 1): the signature lines run at import time (default values, annotations), not when the function runs
                out.append((node.name, body - 1, b))
    return sorted(set(out), key=lambda x: x[1])


def anchor_report(prop: str, reached: set[str], repo: Path, verif: Path) -> tuple[list[dict[str, Any]], list[str]]:
    """Per anchor of the property: functions it maps to in the current tree, executable lines, lines reached. Returns (report, unreached mechanisms)."""
    rec = None
    for line in (verif / "properties.jsonl").read_text().splitlines():
        if line.strip():
            d = json.loads(line)
            if d["id"] == prop:
                rec = d
                break
    if rec is None:
        return [], []
    by_file: dict[str, set[int]] = {}
    for item in reached:
        f, _, n = item.rpartition(":")
        by_file.setdefault(f, set()).add(int(n))
    report = []
    missing = []
    for kind in ("mechanism", "state"):
        for a in rec["anchors"].get(kind, []) or []:
            rel, spans = parse_where(a.get("where", ""))
            path = repo / "aioesphomeapi" / rel
            if not spans or not path.exists():
                report.append({"anchor": a.get("name"), "where": a.get("where"), "kind": kind, "note": "no line span / file not found"})
                continue
            funcs = functions_overlapping(path, spans)
            exe = executable_lines(path)
            if funcs:
                want = {ln for ln in exe if any(fa < ln <= fb for _n, fa, fb in funcs)}   # bodies (the def line itself runs at import)
            else:
                want = {ln for ln in exe if any(s <= ln <= e for s, e in spans)}
            got = want & by_file.get(rel, set())
            report.append({"anchor": a.get("name"), "where": a.get("where"), "kind": kind, "functions_in_current_tree": [f[0] for f in funcs][:12],
                           "executable_lines": len(want), "lines_reached": len(got)})
            if kind == "mechanism" and funcs and want and not got:
                missing.append(f"{a.get('name')} ({a.get('where')})")
    return report, missing

#!/bin/bash
# setup_cmd: nothing to build (pure Python, imports /repo live); sanity-check the toolchain and self-test the reference pieces.
set -e
cd "$(dirname "$0")"
mkdir -p evidence replays
export PYTHONPATH="${VERIF_REPO:-/repo}:$(pwd)" PYTHONDONTWRITEBYTECODE=1 PYTHONHASHSEED=0
/venv/bin/python -m vf.selftest
